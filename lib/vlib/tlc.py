"""Run TLC and parse what it says.  Everything here is a tool wrapper: a failure in this
module is a tool error (exit 2), never a property verdict."""
import json
import os
import re
import shutil
import subprocess
import time

from . import util

JAR = "/opt/veriftools/tla/tla2tools.jar:/opt/veriftools/tla/CommunityModules-deps.jar"


class TlcError(Exception):
    pass


class TlcResult:
    def __init__(self):
        self.stdout = ""
        self.returncode = None
        self.generated = 0
        self.distinct = 0
        self.depth = 0
        self.invariant_violated = None   # name or None
        self.property_violated = None
        self.deadlock = False
        self.postcondition_failed = False
        self.error_lines = []
        self.coverage = {}               # action name -> distinct states found by it (max over spans)
        self.printed = []                # values printed with PrintT (raw text lines)
        self.trace_text = ""             # counterexample text if any
        self.wall_s = 0.0
        self.cmd = ""

    @property
    def ok(self):
        return (self.returncode == 0 and not self.invariant_violated and not self.property_violated
                and not self.deadlock and not self.postcondition_failed and not self.error_lines)

    @property
    def violated(self):
        return bool(self.invariant_violated or self.property_violated or self.deadlock
                    or self.postcondition_failed)


_cov_re = re.compile(r"^<(\w+) line \d+, col \d+ to line \d+, col \d+ of module (\w+)(?: \([\d ]+\))?>: (\d+):(\d+)")


def run(module, cfg, spec_dir, *, workers=4, timeout=600, simulate=None, depth=None, seed=None,
        coverage=True, deadlock=False, env=None, java_opts=None, extra=None, metadir=None,
        dfs_queue=False, heap="4g", keep_stdout_lines=True):
    """Run TLC on spec_dir/module.tla with spec_dir/cfg.  Returns TlcResult.
    Raises TlcError on tool failure (timeout, parse error, crash)."""
    t0 = time.time()
    metadir = metadir or os.path.join(util.BUILD, "tlc", "%s_%s_%d" % (module, os.path.basename(cfg), os.getpid()))
    shutil.rmtree(metadir, ignore_errors=True)
    os.makedirs(metadir, exist_ok=True)
    jopts = ["-XX:+UseParallelGC", "-Xmx" + heap, "-Xss1g"]
    if dfs_queue:
        jopts.append("-Dtlc2.tool.queue.IStateQueue=StateDeque")
    if java_opts:
        jopts += java_opts
    cmd = ["java"] + jopts + ["-cp", JAR, "tlc2.TLC", "-metadir", metadir, "-cleanup", "-noGenerateSpecTE",
                              "-workers", str(workers), "-config", cfg]
    if coverage and not simulate:
        cmd += ["-coverage", "1"]
    if deadlock:
        cmd += ["-deadlock"]
    if simulate:
        cmd += ["-simulate", "num=%d" % simulate]
        if depth:
            cmd += ["-depth", str(depth)]
    if seed is not None:
        cmd += ["-seed", str(seed)]
    if extra:
        cmd += extra
    cmd += [module + ".tla"]
    e = dict(os.environ)
    e.pop("JAVA_TOOL_OPTIONS", None)
    if env:
        e.update({k: str(v) for k, v in env.items()})
    res = TlcResult()
    res.cmd = " ".join(cmd)
    try:
        p = subprocess.run(cmd, cwd=spec_dir, env=e, stdout=subprocess.PIPE, stderr=subprocess.STDOUT,
                           timeout=timeout, text=True, errors="replace")
    except subprocess.TimeoutExpired:
        shutil.rmtree(metadir, ignore_errors=True)
        raise TlcError("TLC timed out after %ss: %s" % (timeout, res.cmd))
    finally:
        pass
    shutil.rmtree(metadir, ignore_errors=True)
    res.wall_s = time.time() - t0
    res.returncode = p.returncode
    out = p.stdout
    res.stdout = out
    in_trace = False
    trace_lines = []
    for line in out.splitlines():
        m = re.search(r"(\d+) states generated, (\d+) distinct states found", line)
        if m:
            res.generated = int(m.group(1))
            res.distinct = int(m.group(2))
        m = re.search(r"The depth of the complete state graph search is (\d+)", line)
        if m:
            res.depth = int(m.group(1))
        m = re.search(r"Error: Invariant (\S+) is violated", line)
        if m:
            res.invariant_violated = m.group(1)
            in_trace = True
        m = re.search(r"Error: Action property (\S+) is violated", line)
        if m:
            res.property_violated = m.group(1)
            in_trace = True
        if "Temporal properties were violated" in line:
            res.property_violated = res.property_violated or "temporal"
            in_trace = True
        if "Error: Deadlock reached" in line:
            res.deadlock = True
            in_trace = True
        low = line.lower()
        if "postcondition" in low and ("violated" in low or "is false" in low or line.startswith("Error:")):
            res.postcondition_failed = True
        if line.startswith("Error:") and not (res.invariant_violated or res.property_violated or res.deadlock
                                              or res.postcondition_failed):
            if "The behavior up to this point" not in line:
                res.error_lines.append(line)
        m = _cov_re.match(line)
        if m:
            # "<Action ...>: distinct:generated"; several disjuncts of one named action are summed
            name = m.group(1)
            res.coverage[name] = res.coverage.get(name, 0) + int(m.group(4))
        if in_trace:
            trace_lines.append(line)
    # counterexamples of trace validation are as long as the trace: keep the head and the tail (the violating state)
    res.trace_text = "\n".join(trace_lines[:200] + (["..."] + trace_lines[-300:] if len(trace_lines) > 500 else trace_lines[200:]))
    # simulation mode prints different statistics
    if simulate and res.generated == 0:
        m = re.search(r"The number of states generated: (\d+)", out)
        if m:
            res.generated = int(m.group(1))
            res.distinct = res.generated
    if p.returncode not in (0,) and not res.violated:
        # 12 = safety violation, 13 = liveness, 11 = deadlock; others are tool errors
        tail = "\n".join(out.splitlines()[-40:])
        raise TlcError("TLC failed (rc=%s): %s\n%s" % (p.returncode, res.cmd, tail))
    return res


def printed_json(res, tag):
    """Extract values printed by PrintT(<<tag, ToJson(x)>>): lines of the form <<"TAG", "....">>.
    ToJson output is embedded as a TLA+ string: undo the TLA+ escaping and parse."""
    vals = []
    prefix = '<<"%s", "' % tag
    for line in res.stdout.splitlines():
        if line.startswith(prefix) and line.endswith('">>'):
            body = line[len(prefix):-3]
            body = body.replace('\\"', '"').replace("\\\\", "\\")
            try:
                vals.append(json.loads(body))
            except json.JSONDecodeError as ex:
                raise TlcError("cannot parse printed JSON (%s): %s" % (ex, line[:200]))
    return vals


def require_coverage(res, actions, what=""):
    """Anti-vacuity: every named action must have produced at least one state."""
    missing = [a for a in actions if res.coverage.get(a, 0) == 0]
    if missing:
        raise TlcError("vacuity: actions never taken in %s: %s (coverage seen: %s)" % (what, missing, res.coverage))
