"""Build harness crates from the repository's current working tree (symlink crates, see DESIGN §1.1).
With VERIF_REPO pointing somewhere else than /repo (mutation experiments in scratch worktrees) a private copy of
the harness crate is made under .build/alt/<hash>/ so the shared harness directory and its target dir are never
re-pointed under concurrent users."""
import hashlib
import os
import shutil

from . import util

HARNESS = os.path.join(util.VERIF, "harness")

CRATES = {
    # name: (repo subdir whose src/ is linked, files not linked)
    "agent": ("proxy_agent", {"main.rs"}),
    "ext": ("proxy_agent_extension", {"main.rs"}),
}


def _alt():
    return os.path.realpath(util.REPO) != "/repo"


def _alt_root():
    h = hashlib.sha256(os.path.realpath(util.REPO).encode()).hexdigest()[:10]
    return os.path.join(util.BUILD, "alt", h)


def crate_dir(name):
    if not _alt():
        return os.path.join(HARNESS, name)
    return os.path.join(_alt_root(), "harness", name)


def bindir(name, release=True):
    base = os.path.join(_alt_root(), "cargo", name) if _alt() else os.path.join(util.BUILD, "cargo", name)
    return os.path.join(base, "release" if release else "debug")


def _sync_alt(name):
    """copy the harness crate's own files (not the symlinks) and rewrite /repo paths"""
    src = os.path.join(HARNESS, name)
    dst = crate_dir(name)
    os.makedirs(dst, exist_ok=True)
    for root, dirs, files in os.walk(src):
        if "target" in dirs:
            dirs.remove("target")
        rel = os.path.relpath(root, src)
        os.makedirs(os.path.join(dst, rel), exist_ok=True)
        for f in files:
            sp = os.path.join(root, f)
            dp = os.path.join(dst, rel, f)
            if os.path.islink(sp) or f == "Cargo.lock":
                continue
            data = open(sp, "rb").read()
            if f == "Cargo.toml":
                data = data.replace(b'"/repo/', ('"' + os.path.realpath(util.REPO) + "/").encode())
            if f == "config.toml":
                tgt = os.path.join(_alt_root(), "cargo", name)
                import re
                data = re.sub(rb'target-dir = "[^"]*"', ('target-dir = "%s"' % tgt).encode(), data)
            if not os.path.exists(dp) or open(dp, "rb").read() != data:
                with open(dp, "wb") as o:
                    o.write(data)


def refresh_links(name):
    sub, skip = CRATES[name]
    src = os.path.join(util.REPO, sub, "src")
    dst = os.path.join(crate_dir(name), "src")
    os.makedirs(dst, exist_ok=True)
    want = {e for e in os.listdir(src) if e not in skip}
    for e in os.listdir(dst):
        p = os.path.join(dst, e)
        if os.path.islink(p) and (e not in want or os.readlink(p) != os.path.join(src, e)):
            os.unlink(p)
    for e in want:
        p = os.path.join(dst, e)
        if not os.path.lexists(p):
            try:
                os.symlink(os.path.join(src, e), p)
            except FileExistsError:        # another check running at the same time made it
                pass
    # lock file: same resolution as the repository
    lock_src = os.path.join(util.REPO, "Cargo.lock")
    lock_dst = os.path.join(crate_dir(name), "Cargo.lock")
    if not os.path.exists(lock_dst):
        shutil.copy(lock_src, lock_dst)


def _sync_deps(name):
    """A tree whose crate declares a dependency the harness crate does not know yet (the sources are compiled through
    symlinks, the manifest is the harness's own) still has to build: missing dependencies are appended to the harness
    manifest with the version / features / path the tree states.  Nothing happens for the tree as found."""
    import tomllib
    sub, _ = CRATES[name]
    repo_crate = os.path.join(util.REPO, sub)
    try:
        rt = tomllib.load(open(os.path.join(repo_crate, "Cargo.toml"), "rb"))
        hp = os.path.join(crate_dir(name), "Cargo.toml")
        ht = tomllib.load(open(hp, "rb"))
    except (OSError, tomllib.TOMLDecodeError) as e:
        raise util.ToolError("cannot read a Cargo manifest: %s" % e)
    want = dict(rt.get("dependencies", {}))
    for cfg, tbl in (rt.get("target") or {}).items():
        if "windows" in cfg and "not(windows)" not in cfg:
            continue
        want.update(tbl.get("dependencies", {}))
    have = set(ht.get("dependencies", {}))
    add = []
    for dep, spec in want.items():
        if dep in have:
            continue
        if isinstance(spec, str):
            spec = {"version": spec}
        lines = ["", "[dependencies.%s]" % dep]
        for k, v in spec.items():
            if k == "path":
                v = os.path.normpath(os.path.join(repo_crate, v))
            if isinstance(v, bool):
                lines.append("%s = %s" % (k, "true" if v else "false"))
            elif isinstance(v, list):
                lines.append("%s = [%s]" % (k, ", ".join('"%s"' % x for x in v)))
            else:
                lines.append('%s = "%s"' % (k, v))
        add += lines
    if add:
        with open(hp, "a") as f:
            f.write("\n# dependencies declared by the tree under check and unknown to the harness manifest\n" + "\n".join(add) + "\n")
        lock = os.path.join(crate_dir(name), "Cargo.lock")
        if os.path.exists(lock):
            os.unlink(lock)                  # resolved again from the tree's lock file (copied by refresh_links)
        util.log("harness/%s: added dependencies %s from the tree's manifest" % (name, [l[14:-1] for l in add if l.startswith("[dependencies.")]))


def cargo_build(name, *, release=True, bins=None, timeout=1800):
    """Returns the directory holding the built binaries."""
    if _alt():
        _sync_alt(name)
    if name in CRATES:
        _sync_deps(name)
        refresh_links(name)
    cdir = crate_dir(name)
    cmd = ["cargo", "build", "--offline", "--quiet"]
    if release:
        cmd.append("--release")
    for b in bins or []:
        cmd += ["--bin", b]
    env = {"CARGO_NET_OFFLINE": "true", "CARGO_TERM_COLOR": "never"}
    t = util.Timer()
    p = util.sh(cmd, cwd=cdir, env=env, timeout=timeout, check=False)
    if p.returncode != 0:
        raise util.ToolError("cargo build of harness/%s failed:\n%s" % (name, (p.stdout or "")[-6000:]))
    util.log("built harness/%s in %ss" % (name, t.s()))
    return bindir(name, release)
