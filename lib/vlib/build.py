"""Build harness crates from /repo's current working tree (symlink crates, see DESIGN §1.1)."""
import os
import shutil

from . import util

HARNESS = os.path.join(util.VERIF, "harness")

CRATES = {
    # name: (repo subdir whose src/ is linked, files not linked)
    "agent": ("proxy_agent", {"main.rs"}),
    "ext": ("proxy_agent_extension", {"main.rs"}),
}


def refresh_links(name):
    sub, skip = CRATES[name]
    src = os.path.join(util.REPO, sub, "src")
    dst = os.path.join(HARNESS, name, "src")
    os.makedirs(dst, exist_ok=True)
    want = {e for e in os.listdir(src) if e not in skip}
    for e in os.listdir(dst):
        p = os.path.join(dst, e)
        if os.path.islink(p) and (e not in want or os.readlink(p) != os.path.join(src, e)):
            os.unlink(p)
    for e in want:
        p = os.path.join(dst, e)
        if not os.path.lexists(p):
            os.symlink(os.path.join(src, e), p)
    # lock file: same resolution as the repository
    lock_src = os.path.join(util.REPO, "Cargo.lock")
    lock_dst = os.path.join(HARNESS, name, "Cargo.lock")
    if not os.path.exists(lock_dst):
        shutil.copy(lock_src, lock_dst)


def cargo_build(name, *, release=True, bins=None, timeout=1800):
    """Returns the directory holding the built binaries."""
    if name in CRATES:
        refresh_links(name)
    cdir = os.path.join(HARNESS, name)
    cmd = ["cargo", "build", "--offline", "--quiet"]
    if release:
        cmd.append("--release")
    for b in bins or []:
        cmd += ["--bin", b]
    env = {"CARGO_NET_OFFLINE": "true", "CARGO_TERM_COLOR": "never"}
    t = util.Timer()
    p = util.sh(cmd, cwd=cdir, env=env, timeout=timeout, check=False)
    if p.returncode != 0:
        raise util.ToolError("cargo build of harness/%s failed:\n%s" % (name, (p.stdout or "")[-6000:]))
    util.log("built harness/%s in %ss" % (name, t.s()))
    return os.path.join(util.BUILD, "cargo", name, "release" if release else "debug")
