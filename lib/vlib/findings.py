"""known_findings.json: committed, never written at run time.
Entry: {property, id, status: "known"|"fixed", signature: {...}, description, commit?}
A violation matches a known entry when every key of the entry's signature equals the same key of the
violation's signature (structural match, never a per-property mute)."""
import os

from . import util

PATH = os.path.join(util.VERIF, "known_findings.json")


def load():
    if not os.path.exists(PATH):
        return []
    return util.read_json(PATH).get("findings", [])


def match(prop, signature):
    for f in load():
        if f.get("property") != prop or f.get("status") != "known":
            continue
        sig = f.get("signature", {})
        if sig and all(signature.get(k) == v for k, v in sig.items()):
            return f
    return None
