import os

from . import util


def write(prop, tier, seed, level, coverage, wall_s, violations, assumptions):
    path = os.path.join(util.EVIDENCE, prop + ".json")
    ev = {
        "property_id": prop,
        "tier": tier,
        "seed": int(seed),
        "level": level,
        "coverage": coverage,
        "assumptions": assumptions,
        "wall_s": float(wall_s),
        "violations": int(violations),
    }
    util.write_json(path, ev)
    return path
